//! C04: an independent writer of spec-valid compound files in arbitrary legal
//! layouts (shuffled sectors, fragmented chains, gaps in the directory, balanced
//! red-black sibling trees, tables anywhere, version 3 or 4).  Uses no code from
//! the crate.  The crate must open every such image in both modes and expose
//! exactly the logical content; short mutation histories are then run on it.

use std::io::Read;

use cfb::Version;

use crate::extra::Report;
use crate::lockstep::Tracer;
use crate::ops::{enc_hex, kind_name, Live, Op, NHANDLES};
use crate::rng::Rng;

const FREE: u32 = 0xFFFF_FFFF;
const EOC: u32 = 0xFFFF_FFFE;
const FATSECT: u32 = 0xFFFF_FFFD;
const NOSTREAM: u32 = 0xFFFF_FFFF;

#[derive(Clone, Debug)]
pub enum Node {
    Stream { name: String, state: u32, data: Vec<u8> },
    Storage { name: String, clsid: u128, state: u32, ctime: u64, mtime: u64, kids: Vec<Node> },
}

impl Node {
    fn name(&self) -> &str {
        match self {
            Node::Stream { name, .. } | Node::Storage { name, .. } => name,
        }
    }
}

/// upper-casing for the order, written independently of the crate: simple
/// one-to-one upper-casing of std; names are drawn from characters for which this
/// is unambiguous (no multi-character or table-exception mappings).
fn up(c: char) -> char {
    let mut it = c.to_uppercase();
    match (it.next(), it.next()) {
        (Some(u), None) => u,
        _ => c,
    }
}

fn key(name: &str) -> (usize, Vec<u16>) {
    let u: Vec<u16> = name.chars().map(up).collect::<String>().encode_utf16().collect();
    (name.encode_utf16().count(), u)
}

const NAME_CHARS: &[&str] = &[
    "a", "B", "c", "D", "z", "0", "_", " ", ".", "-", "\u{e9}", "\u{c9}", "\u{430}", "\u{411}", "\u{3c9}",
    "\u{4e2d}", "\u{10000}", "\u{e000}", "\u{ffff}", "\u{10428}", "\u{1f600}", "x", "Y",
];

fn gen_name(rng: &mut Rng, used: &mut Vec<(usize, Vec<u16>)>) -> String {
    loop {
        let lim = if rng.chance(1, 10) { 14 } else { 4 };
        let n = 1 + rng.below(lim) as usize;
        let mut s = String::new();
        for _ in 0..n {
            let piece: &str = NAME_CHARS[rng.below(NAME_CHARS.len() as u64) as usize];
            s.push_str(piece);
        }
        if s == "." || s == ".." || s.encode_utf16().count() > 31 {
            continue;
        }
        let k = key(&s);
        if !used.contains(&k) {
            used.push(k);
            return s;
        }
    }
}

fn gen_tree(rng: &mut Rng, depth: u32, budget: &mut i32) -> Vec<Node> {
    let mut kids = Vec::new();
    let mut used = Vec::new();
    let wide = depth == 0 && rng.chance(1, 3);
    let n = if depth == 0 { 1 + rng.below(if wide { 18 } else { 7 }) } else { rng.below(5) } as usize;
    for _ in 0..n {
        if *budget <= 0 {
            break;
        }
        *budget -= 1;
        let name = gen_name(rng, &mut used);
        if depth < 3 && rng.chance(1, 3) {
            let sub = gen_tree(rng, depth + 1, budget);
            kids.push(Node::Storage {
                name,
                clsid: if rng.chance(1, 2) { 0 } else { ((rng.next() as u128) << 64) | rng.next() as u128 },
                state: *rng.pick(&[0u32, 1, 0xFFFF_FFFF, 77]),
                ctime: *rng.pick(&[0u64, 116_444_736_000_000_000, 132_000_000_000_000_000, u64::MAX]),
                mtime: *rng.pick(&[0u64, 1, 132_000_000_123_456_789]),
                kids: sub,
            });
        } else {
            let len = *rng.pick(&[0usize, 1, 63, 64, 65, 200, 1000, 4095, 4096, 4097, 5000, 9000]);
            let tag = rng.below(200) as usize;
            kids.push(Node::Stream {
                name,
                state: *rng.pick(&[0u32, 5]),
                data: (0..len).map(|i| ((i * 7 + tag + (i >> 8)) % 251 + 1) as u8).collect(),
            });
        }
    }
    kids
}

struct Ent {
    name: Vec<u16>,
    ty: u8,
    color: u8,
    left: u32,
    right: u32,
    child: u32,
    clsid: u128,
    state: u32,
    ctime: u64,
    mtime: u64,
    start: u32,
    size: u64,
}

fn encode_ent(e: &Ent) -> Vec<u8> {
    let mut b = vec![0u8; 128];
    for (i, u) in e.name.iter().enumerate() {
        b[2 * i..2 * i + 2].copy_from_slice(&u.to_le_bytes());
    }
    let nl = if e.ty == 0 { 0u16 } else { (e.name.len() as u16 + 1) * 2 };
    b[64..66].copy_from_slice(&nl.to_le_bytes());
    b[66] = e.ty;
    b[67] = e.color;
    b[68..72].copy_from_slice(&e.left.to_le_bytes());
    b[72..76].copy_from_slice(&e.right.to_le_bytes());
    b[76..80].copy_from_slice(&e.child.to_le_bytes());
    let g = e.clsid;
    b[80..84].copy_from_slice(&((g >> 96) as u32).to_le_bytes());
    b[84..86].copy_from_slice(&((g >> 80) as u16).to_le_bytes());
    b[86..88].copy_from_slice(&((g >> 64) as u16).to_le_bytes());
    b[88..96].copy_from_slice(&(g as u64).to_be_bytes());
    b[96..100].copy_from_slice(&e.state.to_le_bytes());
    b[100..108].copy_from_slice(&e.ctime.to_le_bytes());
    b[108..116].copy_from_slice(&e.mtime.to_le_bytes());
    b[116..120].copy_from_slice(&e.start.to_le_bytes());
    b[120..128].copy_from_slice(&e.size.to_le_bytes());
    b
}

/// Balanced search tree over `sorted` slot ids; returns the root.  Nodes on the
/// last, incomplete level are red, all others black: a valid red-black tree.
fn build_rb(sorted: &[u32], ents: &mut Vec<Ent>, depth: u32, full_depth: u32) -> u32 {
    if sorted.is_empty() {
        return NOSTREAM;
    }
    let mid = sorted.len() / 2;
    let id = sorted[mid];
    let l = build_rb(&sorted[..mid], ents, depth + 1, full_depth);
    let r = build_rb(&sorted[mid + 1..], ents, depth + 1, full_depth);
    let e = &mut ents[id as usize];
    e.left = l;
    e.right = r;
    e.color = if depth >= full_depth { 0 } else { 1 };
    id
}

/// The same by insertion into a left-leaning red-black tree (Sedgewick's 2-3 variant) in a
/// random order: a valid red-black tree with red INTERNAL nodes and an irregular shape.
/// Keys are the positions in `sorted`.
fn build_rb_by_insertion(rng: &mut Rng, sorted: &[u32], ents: &mut Vec<Ent>) -> u32 {
    const NIL: usize = usize::MAX;
    let n = sorted.len();
    if n == 0 {
        return NOSTREAM;
    }
    let mut left = vec![NIL; n];
    let mut right = vec![NIL; n];
    let mut red = vec![false; n];
    fn is_red(red: &[bool], h: usize) -> bool {
        h != usize::MAX && red[h]
    }
    fn rot_left(left: &mut [usize], right: &mut [usize], red: &mut [bool], h: usize) -> usize {
        let x = right[h];
        right[h] = left[x];
        left[x] = h;
        red[x] = red[h];
        red[h] = true;
        x
    }
    fn rot_right(left: &mut [usize], right: &mut [usize], red: &mut [bool], h: usize) -> usize {
        let x = left[h];
        left[h] = right[x];
        right[x] = h;
        red[x] = red[h];
        red[h] = true;
        x
    }
    fn insert(left: &mut [usize], right: &mut [usize], red: &mut [bool], h: usize, k: usize) -> usize {
        if h == usize::MAX {
            red[k] = true;
            return k;
        }
        if k < h {
            let l = insert(left, right, red, left[h], k);
            left[h] = l;
        } else {
            let r = insert(left, right, red, right[h], k);
            right[h] = r;
        }
        let mut h = h;
        if is_red(red, right[h]) && !is_red(red, left[h]) {
            h = rot_left(left, right, red, h);
        }
        if is_red(red, left[h]) && left[h] != usize::MAX && is_red(red, left[left[h]]) {
            h = rot_right(left, right, red, h);
        }
        if is_red(red, left[h]) && is_red(red, right[h]) {
            red[h] = true;
            let (l, r) = (left[h], right[h]);
            red[l] = false;
            red[r] = false;
        }
        h
    }
    let mut order: Vec<usize> = (0..n).collect();
    for i in (1..n).rev() {
        let j = rng.below(i as u64 + 1) as usize;
        order.swap(i, j);
    }
    let mut root = NIL;
    for k in order {
        root = insert(&mut left, &mut right, &mut red, root, k);
        red[root] = false;
    }
    for k in 0..n {
        let e = &mut ents[sorted[k] as usize];
        e.left = if left[k] == NIL { NOSTREAM } else { sorted[left[k]] };
        e.right = if right[k] == NIL { NOSTREAM } else { sorted[right[k]] };
        e.color = if red[k] { 0 } else { 1 };
    }
    sorted[root]
}

pub struct Synth {
    pub bytes: Vec<u8>,
    pub desc: String,
}

pub fn synthesize(rng: &mut Rng, v: Version, root_kids: &[Node], root_meta: (u128, u32, u64, u64)) -> Synth {
    synthesize_with(rng, v, root_kids, root_meta, 0)
}

/// `fat_target` > 0: the FAT is given at least that many sectors (the surplus ones hold only
/// FREE entries for positions beyond the end of the file), listed in the header DIFAT and, past
/// its 109 entries, in a chain of DIFAT sectors.
pub fn synthesize_with(rng: &mut Rng, v: Version, root_kids: &[Node], root_meta: (u128, u32, u64, u64), fat_target: usize) -> Synth {
    let sl = v.sector_len();
    let per_dir = sl / 128;
    // ---- directory slots ----
    fn count(ns: &[Node]) -> usize {
        ns.iter().map(|n| 1 + if let Node::Storage { kids, .. } = n { count(kids) } else { 0 }).sum()
    }
    let nobj = 1 + count(root_kids);
    let gaps = rng.below(6) as usize;
    let mut nslots = nobj + gaps;
    nslots = ((nslots + per_dir - 1) / per_dir) * per_dir;
    if rng.chance(1, 4) {
        nslots += per_dir; // a whole unused directory sector
    }
    let mut free_slots: Vec<u32> = (1..nslots as u32).collect();
    // shuffle
    for i in (1..free_slots.len()).rev() {
        let j = rng.below(i as u64 + 1) as usize;
        free_slots.swap(i, j);
    }
    let mut ents: Vec<Ent> = (0..nslots)
        .map(|_| Ent { name: vec![], ty: 0, color: 0, left: NOSTREAM, right: NOSTREAM, child: NOSTREAM, clsid: 0, state: 0, ctime: 0, mtime: 0, start: 0, size: 0 })
        .collect();
    // ---- stream placement bookkeeping ----
    let mut big: Vec<(u32, usize)> = Vec::new(); // (slot, nsectors)
    let mut small: Vec<(u32, usize)> = Vec::new(); // (slot, nmini)
    let mut datas: Vec<(u32, Vec<u8>)> = Vec::new();
    fn place(
        rng: &mut Rng, nodes: &[Node], ents: &mut Vec<Ent>, free_slots: &mut Vec<u32>, sl: usize,
        big: &mut Vec<(u32, usize)>, small: &mut Vec<(u32, usize)>, datas: &mut Vec<(u32, Vec<u8>)>,
    ) -> u32 {
        let mut ids: Vec<(u32, (usize, Vec<u16>))> = Vec::new();
        for n in nodes {
            let slot = free_slots.pop().unwrap();
            ids.push((slot, key(n.name())));
            let name16: Vec<u16> = n.name().encode_utf16().collect();
            match n {
                Node::Stream { state, data, .. } => {
                    let e = &mut ents[slot as usize];
                    e.name = name16;
                    e.ty = 2;
                    e.state = *state;
                    e.size = data.len() as u64;
                    e.start = EOC;
                    if data.len() >= 4096 {
                        big.push((slot, (data.len() + sl - 1) / sl));
                    } else if !data.is_empty() {
                        small.push((slot, (data.len() + 63) / 64));
                    }
                    datas.push((slot, data.clone()));
                }
                Node::Storage { clsid, state, ctime, mtime, kids, .. } => {
                    let child = place(rng, kids, ents, free_slots, sl, big, small, datas);
                    let e = &mut ents[slot as usize];
                    e.name = name16;
                    e.ty = 1;
                    e.clsid = *clsid;
                    e.state = *state;
                    e.ctime = *ctime;
                    e.mtime = *mtime;
                    e.child = child;
                }
            }
        }
        ids.sort_by(|a, b| a.1.cmp(&b.1));
        let sorted: Vec<u32> = ids.iter().map(|x| x.0).collect();
        let n = sorted.len();
        // depth of the last complete level
        let mut full = 0u32;
        while (1usize << (full + 1)) - 1 <= n {
            full += 1;
        }
        match rng.below(3) {
            0 => build_rb_by_insertion(rng, &sorted, ents),
            1 => build_rb(&sorted, ents, 0, full),
            _ => {
                // balanced shape, levels coloured alternately from the bottom: the incomplete
                // last level red, the level above black, the next red, ... and the root black.
                // Red nodes then occur as LEFT and as RIGHT children at several depths (e.g. red
                // P, black N = P.left, red R = N.right), which neither of the other two shapes has.
                let root = build_rb(&sorted, ents, 0, full);
                fn recolour(ents: &mut Vec<Ent>, id: u32, depth: u32, full: u32) {
                    if id == NOSTREAM {
                        return;
                    }
                    let (l, r) = (ents[id as usize].left, ents[id as usize].right);
                    let red = if depth >= full { true } else { depth > 0 && (full - depth) % 2 == 0 };
                    ents[id as usize].color = if red { 0 } else { 1 };
                    recolour(ents, l, depth + 1, full);
                    recolour(ents, r, depth + 1, full);
                }
                recolour(ents, root, 0, full);
                root
            }
        }
    }
    let root_child = place(rng, root_kids, &mut ents, &mut free_slots, sl, &mut big, &mut small, &mut datas);
    // ---- mini stream ----
    let need_mini: usize = small.iter().map(|x| x.1).sum();
    let mini_pool = if need_mini == 0 { 0 } else { need_mini + rng.below(5) as usize };
    let mut mini_ids: Vec<u32> = (0..mini_pool as u32).collect();
    for i in (1..mini_ids.len()).rev() {
        let j = rng.below(i as u64 + 1) as usize;
        mini_ids.swap(i, j);
    }
    let mut minifat = vec![FREE; mini_pool];
    let mut mini_data = vec![0u8; mini_pool * 64];
    for b in mini_data.iter_mut() {
        *b = 0xEE; // free mini sectors hold garbage
    }
    for (slot, n) in small.iter() {
        let chain: Vec<u32> = (0..*n).map(|_| mini_ids.pop().unwrap()).collect();
        for w in 0..chain.len() {
            minifat[chain[w] as usize] = if w + 1 < chain.len() { chain[w + 1] } else { EOC };
        }
        ents[*slot as usize].start = chain[0];
        let data = &datas.iter().find(|d| d.0 == *slot).unwrap().1;
        for (k, ms) in chain.iter().enumerate() {
            let lo = k * 64;
            let hi = (lo + 64).min(data.len());
            mini_data[*ms as usize * 64..*ms as usize * 64 + (hi - lo)].copy_from_slice(&data[lo..hi]);
        }
    }
    let n_ministream = (mini_pool * 64 + sl - 1) / sl;
    let n_minifat = (mini_pool * 4 + sl - 1) / sl;
    let n_dir = nslots / per_dir;
    let n_big: usize = big.iter().map(|x| x.1).sum();
    let extra_free = rng.below(4) as usize;
    let mut n_fat = 1;
    let per_difat = sl / 4 - 1;
    let n_difat_for = |n_fat: usize| if n_fat > 109 { (n_fat - 109 + per_difat - 1) / per_difat } else { 0 };
    loop {
        let total = n_fat + n_difat_for(n_fat) + n_dir + n_minifat + n_ministream + n_big + extra_free;
        if total <= n_fat * (sl / 4) && n_fat >= fat_target {
            break;
        }
        n_fat += 1;
    }
    let n_difat = n_difat_for(n_fat);
    let total = n_fat + n_difat + n_dir + n_minifat + n_ministream + n_big + extra_free;
    let mut sec_ids: Vec<u32> = (0..total as u32).collect();
    for i in (1..sec_ids.len()).rev() {
        let j = rng.below(i as u64 + 1) as usize;
        sec_ids.swap(i, j);
    }
    let mut fat = vec![FREE; total];
    let mut sectors: Vec<Vec<u8>> = (0..total).map(|_| vec![0xDDu8; sl]).collect();
    let mut take_chain = |n: usize, fat: &mut Vec<u32>| -> Vec<u32> {
        let c: Vec<u32> = (0..n).map(|_| sec_ids.pop().unwrap()).collect();
        for w in 0..c.len() {
            fat[c[w] as usize] = if w + 1 < c.len() { c[w + 1] } else { EOC };
        }
        c
    };
    let fat_secs = take_chain(n_fat, &mut fat);
    for &f in fat_secs.iter() {
        fat[f as usize] = FATSECT;
    }
    let difat_secs = take_chain(n_difat, &mut fat);
    for &f in difat_secs.iter() {
        fat[f as usize] = 0xFFFF_FFFC;
    }
    let dir_secs = take_chain(n_dir, &mut fat);
    let mf_secs = take_chain(n_minifat, &mut fat);
    let ms_secs = take_chain(n_ministream, &mut fat);
    for (slot, n) in big.iter() {
        let c = take_chain(*n, &mut fat);
        ents[*slot as usize].start = c[0];
        let data = &datas.iter().find(|d| d.0 == *slot).unwrap().1;
        for (k, s) in c.iter().enumerate() {
            let lo = k * sl;
            let hi = (lo + sl).min(data.len());
            sectors[*s as usize][..hi - lo].copy_from_slice(&data[lo..hi]);
        }
    }
    // root entry
    {
        let e = &mut ents[0];
        e.name = "Root Entry".encode_utf16().collect();
        e.ty = 5;
        e.color = 1;
        e.child = root_child;
        e.clsid = root_meta.0;
        e.state = root_meta.1;
        e.ctime = root_meta.2;
        e.mtime = root_meta.3;
        e.start = if n_ministream > 0 { ms_secs[0] } else { EOC };
        e.size = (mini_pool * 64) as u64;
    }
    // write tables
    for (k, s) in dir_secs.iter().enumerate() {
        let mut b = Vec::new();
        for i in 0..per_dir {
            b.extend(encode_ent(&ents[k * per_dir + i]));
        }
        sectors[*s as usize] = b;
    }
    for (k, s) in mf_secs.iter().enumerate() {
        let mut b = Vec::new();
        for i in 0..sl / 4 {
            let idx = k * (sl / 4) + i;
            b.extend((if idx < minifat.len() { minifat[idx] } else { FREE }).to_le_bytes());
        }
        sectors[*s as usize] = b;
    }
    for (k, s) in ms_secs.iter().enumerate() {
        let lo = k * sl;
        let hi = (lo + sl).min(mini_data.len());
        let mut b = mini_data[lo..hi].to_vec();
        b.resize(sl, 0);
        sectors[*s as usize] = b;
    }
    for (k, s) in fat_secs.iter().enumerate() {
        let mut b = Vec::new();
        for i in 0..sl / 4 {
            let idx = k * (sl / 4) + i;
            b.extend((if idx < fat.len() { fat[idx] } else { FREE }).to_le_bytes());
        }
        sectors[*s as usize] = b;
    }
    for (k, s) in difat_secs.iter().enumerate() {
        let mut b = Vec::new();
        for i in 0..per_difat {
            let idx = 109 + k * per_difat + i;
            b.extend((if idx < fat_secs.len() { fat_secs[idx] } else { FREE }).to_le_bytes());
        }
        b.extend((if k + 1 < difat_secs.len() { difat_secs[k + 1] } else { EOC }).to_le_bytes());
        sectors[*s as usize] = b;
    }
    // header
    let mut h = vec![0u8; sl];
    h[..8].copy_from_slice(&[0xd0, 0xcf, 0x11, 0xe0, 0xa1, 0xb1, 0x1a, 0xe1]);
    h[24..26].copy_from_slice(&0x3eu16.to_le_bytes());
    h[26..28].copy_from_slice(&(if v == Version::V3 { 3u16 } else { 4 }).to_le_bytes());
    h[28..30].copy_from_slice(&0xfffeu16.to_le_bytes());
    h[30..32].copy_from_slice(&(if v == Version::V3 { 9u16 } else { 12 }).to_le_bytes());
    h[32..34].copy_from_slice(&6u16.to_le_bytes());
    h[40..44].copy_from_slice(&(if v == Version::V3 { 0u32 } else { n_dir as u32 }).to_le_bytes());
    h[44..48].copy_from_slice(&(n_fat as u32).to_le_bytes());
    h[48..52].copy_from_slice(&dir_secs[0].to_le_bytes());
    h[56..60].copy_from_slice(&4096u32.to_le_bytes());
    h[60..64].copy_from_slice(&(if n_minifat > 0 { mf_secs[0] } else { EOC }).to_le_bytes());
    h[64..68].copy_from_slice(&(n_minifat as u32).to_le_bytes());
    h[68..72].copy_from_slice(&(if n_difat > 0 { difat_secs[0] } else { EOC }).to_le_bytes());
    h[72..76].copy_from_slice(&(n_difat as u32).to_le_bytes());
    for i in 0..109 {
        let val = if i < fat_secs.len() { fat_secs[i] } else { FREE };
        h[76 + 4 * i..80 + 4 * i].copy_from_slice(&val.to_le_bytes());
    }
    let mut bytes = h;
    for s in sectors {
        bytes.extend(s);
    }
    Synth {
        bytes,
        desc: format!(
            "{:?} objects={} slots={} dir_secs={} fat_secs={} difat_secs={} mini_pool={} big_secs={} free_secs={}",
            v, nobj, nslots, n_dir, n_fat, n_difat, mini_pool, n_big, extra_free
        ),
    }
}

/// Expected dump: pre-order, children in CFB order (path, type, len, clsid, state, ctime, mtime, fnv of data)
fn expected_dump(kids: &[Node], parent: &str, out: &mut Vec<String>) {
    let mut sorted: Vec<&Node> = kids.iter().collect();
    sorted.sort_by_key(|a| key(a.name()));
    for n in sorted {
        let path = if parent == "/" { format!("/{}", n.name()) } else { format!("{}/{}", parent, n.name()) };
        match n {
            Node::Stream { state, data, .. } => {
                out.push(format!("F {} len={} state={} data={:x}", path, data.len(), state, fnv(data)));
            }
            Node::Storage { clsid, state, ctime, mtime, kids, .. } => {
                out.push(format!("D {} clsid={:032x} state={} c={} m={}", path, clsid, state, ctime, mtime));
                expected_dump(kids, &path, out);
            }
        }
    }
}

fn fnv(b: &[u8]) -> u64 {
    let mut h = 0xcbf29ce484222325u64;
    for x in b {
        h ^= *x as u64;
        h = h.wrapping_mul(0x100000001b3);
    }
    h
}

fn ticks(t: web_time::SystemTime) -> u64 {
    // inverse of the FILETIME conversion for in-range values
    const E: u64 = 116_444_736_000_000_000;
    match t.duration_since(web_time::UNIX_EPOCH) {
        Ok(d) => E + d.as_secs() * 10_000_000 + (d.subsec_nanos() / 100) as u64,
        Err(e) => {
            let d = e.duration();
            E - (d.as_secs() * 10_000_000 + (d.subsec_nanos() / 100) as u64)
        }
    }
}

fn actual_dump(live: &mut Live) -> Result<Vec<String>, String> {
    let comp = live.comp.as_mut().unwrap();
    let entries: Vec<cfb::Entry> = comp.walk().collect();
    let mut out = Vec::new();
    for e in entries.iter().skip(1) {
        let path = e.path().to_str().unwrap().to_string();
        if e.is_stream() {
            let mut v = Vec::new();
            comp.open_stream(&path).map_err(|x| format!("open_stream {}: {}", path, x))?.read_to_end(&mut v).map_err(|x| format!("read {}: {}", path, x))?;
            if !e.clsid().is_nil() {
                return Err(format!("stream {} reports a CLSID", path));
            }
            out.push(format!("F {} len={} state={} data={:x}", path, e.len(), e.state_bits(), fnv(&v)));
            if v.len() as u64 != e.len() {
                return Err(format!("{}: entry len {} but {} bytes read", path, e.len(), v.len()));
            }
        } else {
            out.push(format!(
                "D {} clsid={:032x} state={} c={} m={}",
                path, e.clsid().as_u128(), e.state_bits(), ticks(e.created()), ticks(e.modified())
            ));
        }
    }
    Ok(out)
}

pub fn run(seed: u64, count: usize, out: &str) -> Report {
    use std::io::Write as _;
    let mut rep = Report::new();
    let mut master = Rng::new(seed);
    let file = std::fs::File::create(out).unwrap();
    let mut w = std::io::BufWriter::new(file);
    for i in 0..count {
        let mut rng = master.fork();
        // one case in eight: small streams that nearly fill one MiniFAT sector (128 entries in
        // version 3), so that the mutation history afterwards crosses that boundary - with the
        // mini stream ending in free mini sectors most of the time
        let nearly_full = rng.chance(1, 8);
        let v = if nearly_full || rng.chance(3, 5) { Version::V3 } else { Version::V4 };
        let mut budget = 22;
        let kids = if nearly_full {
            let mut used = Vec::new();
            let target = 108 + rng.below(18) as usize; // mini sectors
            let mut left = target;
            let mut ks = Vec::new();
            while left > 0 {
                let n = left.min(1 + rng.below(60) as usize);
                left -= n;
                let len = n * 64 - rng.below(64) as usize;
                let tag = rng.below(200) as usize;
                ks.push(Node::Stream { name: gen_name(&mut rng, &mut used), state: 0, data: (0..len).map(|i| ((i * 7 + tag) % 251 + 1) as u8).collect() });
            }
            ks
        } else {
            gen_tree(&mut rng, 0, &mut budget)
        };
        let root_meta = (
            if rng.chance(1, 2) { 0u128 } else { rng.next() as u128 },
            *rng.pick(&[0u32, 3]),
            0u64,
            *rng.pick(&[0u64, 132_000_000_000_000_000]),
        );
        let sy = synthesize(&mut rng, v, &kids, root_meta);
        let mut want = Vec::new();
        expected_dump(&kids, "/", &mut want);
        rep.evaluations += 1;
        rep.distinct.insert(format!("{}#{}", sy.desc, want.len()));
        if rep.samples.len() < 2 {
            rep.samples.push(format!("{} :: {}", sy.desc, want.iter().take(4).cloned().collect::<Vec<_>>().join(" | ")));
        }
        let id = format!("layout-{}-{}", seed, i);
        for strict in [true, false] {
            let r = std::panic::catch_unwind(|| Live::open(sy.bytes.clone(), strict, 4096));
            let mut live = match r {
                Ok(Ok(l)) => l,
                Ok(Err(e)) => {
                    rep.fail(format!("layouts seed={} case={} [{}]: {} open rejects a valid layout: {} ({})", seed, i, sy.desc, if strict { "strict" } else { "permissive" }, e, kind_name(&e)));
                    writeln!(w, "B {} 4096 {} {} err:{} {}", id, NHANDLES, if strict { "s" } else { "p" }, kind_name(&e), enc_hex(&sy.bytes)).unwrap();
                    writeln!(w, "E").unwrap();
                    continue;
                }
                Err(_) => {
                    rep.fail(format!("layouts seed={} case={} [{}]: open panicked", seed, i, sy.desc));
                    continue;
                }
            };
            match std::panic::catch_unwind(std::panic::AssertUnwindSafe(|| actual_dump(&mut live))) {
                Ok(Ok(got)) => {
                    if got != want {
                        let d = got.iter().zip(want.iter()).position(|(a, b)| a != b);
                        rep.fail(format!(
                            "layouts seed={} case={} [{}] strict={}: logical content differs at entry {:?}: got {:?} want {:?} (got {} entries, want {})",
                            seed, i, sy.desc, strict, d,
                            d.map(|k| got[k].clone()), d.map(|k| want[k].clone()), got.len(), want.len()
                        ));
                    }
                }
                Ok(Err(e)) => rep.fail(format!("layouts seed={} case={} [{}] strict={}: {}", seed, i, sy.desc, strict, e)),
                Err(_) => rep.fail(format!("layouts seed={} case={} [{}] strict={}: panic while dumping", seed, i, sy.desc, strict)),
            }
            if !strict {
                // trace for the model: dump + a short mutation history with images (C01-C03 afterwards)
                let mut buf: Vec<u8> = Vec::new();
                writeln!(buf, "B {} 4096 {} p ok {}", id, NHANDLES, enc_hex(&sy.bytes)).unwrap();
                let mut tr = Tracer { out: &mut buf, last_img: sy.bytes.clone(), step: 0, with_images: true };
                let paths: Vec<(String, bool)> = live.comp.as_ref().unwrap().walk().map(|e| (e.path().to_str().unwrap().to_string(), e.is_stream())).collect();
                tr.exec(&mut live, &Op::Walk);
                for (p, is_stream) in paths.iter() {
                    if *is_stream {
                        tr.exec(&mut live, &Op::Cat(p.clone()));
                    } else {
                        tr.exec(&mut live, &Op::ReadStorage(p.clone()));
                    }
                }
                // mutate: remove something, create, overwrite, grow
                let mut k = 0;
                for (p, is_stream) in paths.iter().skip(1) {
                    k += 1;
                    if *is_stream && k % 3 == 0 {
                        tr.exec(&mut live, &Op::RemoveStream(p.clone()));
                    } else if *is_stream && k % 3 == 1 {
                        tr.exec(&mut live, &Op::CreateStream(0, p.clone()));
                        tr.exec(&mut live, &Op::HWrite(0, vec![0x42; *rng.pick(&[10usize, 700, 5000])]));
                        tr.exec(&mut live, &Op::HDrop(0));
                    } else if !*is_stream && k % 2 == 0 {
                        tr.exec(&mut live, &Op::CreateStorage(format!("{}/zz{}", p, k)));
                    }
                    if live.dead {
                        break;
                    }
                }
                tr.exec(&mut live, &Op::CreateStream(1, "/fresh".into()));
                tr.exec(&mut live, &Op::HWrite(1, vec![7u8; 4500]));
                tr.exec(&mut live, &Op::HDrop(1));
                tr.exec(&mut live, &Op::Walk);
                // removals one at a time out of the foreign (balanced, coloured) sibling trees,
                // each followed by a strict reopening of the bytes
                let mut removed = 0;
                for (p, is_stream) in paths.iter().skip(1) {
                    if removed >= 8 || live.dead {
                        break;
                    }
                    if !*is_stream || !live.comp.as_ref().unwrap().is_stream(p) {
                        continue;
                    }
                    if rng.chance(1, 2) {
                        continue;
                    }
                    removed += 1;
                    if tr.exec(&mut live, &Op::RemoveStream(p.clone())) != "ok" {
                        continue;
                    }
                    let before = std::panic::catch_unwind(std::panic::AssertUnwindSafe(|| live.dump())).ok();
                    let r = tr.exec(&mut live, &Op::Reopen(true));
                    if live.dead {
                        break;
                    }
                    if r != "ok" {
                        rep.fail(format!("layouts seed={} case={} [{}]: after removing {} the bytes no longer reopen in strict mode: {}", seed, i, sy.desc, p, r));
                        break;
                    }
                    let after = std::panic::catch_unwind(std::panic::AssertUnwindSafe(|| live.dump())).ok();
                    if after != before {
                        rep.fail(format!("layouts seed={} case={} [{}]: after removing {} the reopened file shows different content", seed, i, sy.desc, p));
                        break;
                    }
                }
                // "mutating such a file afterwards keeps C01-C03": the bytes must reopen strictly
                // and show what the live object showed
                let before = if live.dead { None } else { std::panic::catch_unwind(std::panic::AssertUnwindSafe(|| live.dump())).ok() };
                let r = tr.exec(&mut live, &Op::Reopen(true));
                if !live.dead {
                    if r != "ok" {
                        rep.fail(format!("layouts seed={} case={} [{}]: after a short mutation history the bytes no longer reopen in strict mode: {}", seed, i, sy.desc, r));
                    } else if let Some(b) = before {
                        let after = std::panic::catch_unwind(std::panic::AssertUnwindSafe(|| live.dump())).ok();
                        if after.as_ref() != Some(&b) {
                            rep.fail(format!("layouts seed={} case={} [{}]: after a short mutation history the reopened file shows different content than the live object", seed, i, sy.desc));
                        }
                    }
                }
                tr.exec(&mut live, &Op::Walk);
                if live.dead {
                    rep.fail(format!("layouts seed={} case={} [{}]: panic while mutating a foreign layout", seed, i, sy.desc));
                }
                writeln!(buf, "E").unwrap();
                w.write_all(&buf).unwrap();
            }
        }
    }
    w.flush().unwrap();
    rep
}

/// C02 / C03 in the DIFAT regime: files whose FAT already has about 109 (the header DIFAT's
/// capacity) or about 109 + k * (sector_len/4 - 1) sectors, so that the next FAT sector the
/// library appends is listed in a DIFAT sector, in a new DIFAT sector, or in a second one.
/// Such files are megabytes long when the library builds them itself; here they are laid out
/// directly with a FAT that is larger than the file needs (surplus entries FREE), which every
/// reader must accept.  The history grows the file across two FAT-sector boundaries with
/// reopenings in between; the implementation's own dump before and after every reopening must
/// be equal (C02), every image goes to the independent checker and the model (C03).
pub fn difat_run(seed: u64, count: usize, out: &str) -> Report {
    use std::io::Write as _;
    let mut rep = Report::new();
    let mut master = Rng::new(seed);
    let file = std::fs::File::create(out).unwrap();
    let mut w = std::io::BufWriter::new(file);
    for i in 0..count {
        let mut rng = master.fork();
        // V4 needs 4 MB of growth per FAT sector: it gets the open / dump part only
        let v4 = rng.chance(1, 10);
        let v = if v4 { Version::V4 } else { Version::V3 };
        let per = v.sector_len() / 4 - 1;
        let target = if v4 {
            *rng.pick(&[108usize, 109, 110])
        } else {
            *rng.pick(&[107usize, 108, 109, 110, 109 + per - 1, 109 + per, 109 + per + 1, 109 + 2 * per - 1, 109 + 2 * per])
        };
        let mut budget = 4;
        let kids = gen_tree(&mut rng, 0, &mut budget);
        let sy = synthesize_with(&mut rng, v, &kids, (0, 0, 0, 0), target);
        let mut want = Vec::new();
        expected_dump(&kids, "/", &mut want);
        rep.evaluations += 1;
        rep.distinct.insert(format!("{}#{}", sy.desc, want.len()));
        if rep.samples.len() < 2 {
            rep.samples.push(sy.desc.clone());
        }
        let id = format!("difat-{}-{}", seed, i);
        // both modes must accept and show the laid-out content
        let mut live = None;
        for strict in [true, false] {
            match std::panic::catch_unwind(|| Live::open(sy.bytes.clone(), strict, 4096)) {
                Ok(Ok(mut l)) => {
                    match std::panic::catch_unwind(std::panic::AssertUnwindSafe(|| actual_dump(&mut l))) {
                        Ok(Ok(got)) if got == want => {}
                        Ok(Ok(_)) => rep.fail(format!("difat seed={} case={} [{}] strict={}: logical content differs from what was laid out", seed, i, sy.desc, strict)),
                        Ok(Err(e)) => rep.fail(format!("difat seed={} case={} [{}] strict={}: {}", seed, i, sy.desc, strict, e)),
                        Err(_) => rep.fail(format!("difat seed={} case={} [{}] strict={}: panic while dumping", seed, i, sy.desc, strict)),
                    }
                    if !strict {
                        live = Some(l);
                    }
                }
                Ok(Err(e)) => rep.fail(format!("difat seed={} case={} [{}]: {} open rejects a valid layout: {}", seed, i, sy.desc, if strict { "strict" } else { "permissive" }, e)),
                Err(_) => rep.fail(format!("difat seed={} case={} [{}]: open panicked", seed, i, sy.desc)),
            }
        }
        let mut live = match live {
            Some(l) => l,
            None => continue,
        };
        let mut buf: Vec<u8> = Vec::new();
        writeln!(buf, "B {} 4096 {} p ok {}", id, NHANDLES, enc_hex(&sy.bytes)).unwrap();
        let mut tr = Tracer { out: &mut buf, last_img: sy.bytes.clone(), step: 0, with_images: true };
        let sl = v.sector_len();
        let fat_span = sl / 4; // sectors covered by one FAT sector
        let mut problems: Vec<String> = Vec::new();
        // reopen with the implementation's own before/after comparison
        let mut reopen = |tr: &mut Tracer<&mut Vec<u8>>, live: &mut Live, strict: bool, problems: &mut Vec<String>| {
            let before = std::panic::catch_unwind(std::panic::AssertUnwindSafe(|| live.dump()));
            let r = tr.exec(live, &Op::Reopen(strict));
            if r != "ok" {
                problems.push(format!("the bytes left after step {} do not reopen ({}): {}", tr.step - 1, if strict { "strict" } else { "permissive" }, r));
                return false;
            }
            let after = std::panic::catch_unwind(std::panic::AssertUnwindSafe(|| live.dump()));
            match (before, after) {
                (Ok(b), Ok(a)) => {
                    if a != b {
                        problems.push(format!("after step {} the reopened file ({}) shows different content than the live object", tr.step - 1, if strict { "strict" } else { "permissive" }));
                    }
                }
                _ => problems.push(format!("panic while dumping around the reopening at step {}", tr.step)),
            }
            true
        };
        let mut alive = true;
        for round in 0..3 {
            if v4 {
                tr.exec(&mut live, &Op::CreateStream(0, "/v4".into()));
                tr.exec(&mut live, &Op::HWrite(0, vec![4u8; 5000]));
                tr.exec(&mut live, &Op::HDrop(0));
                reopen(&mut tr, &mut live, true, &mut problems);
                break;
            }
            if !alive || live.dead {
                break;
            }
            // grow until the sector count has crossed the next multiple of fat_span
            let nsect = live.buf.len() / sl - 1;
            let to_boundary = fat_span - nsect % fat_span;
            let grow = (to_boundary + 1 + rng.below(6) as usize) * sl;
            let path = format!("/grow{}", round);
            tr.exec(&mut live, &Op::CreateStream(0, path.clone()));
            let data: Vec<u8> = (0..grow).map(|k| ((k * 5 + round + (k >> 9)) % 253 + 1) as u8).collect();
            let mut off = 0;
            let mut nw = 0;
            while off < data.len() {
                // the image goes into the trace after every fourth write and after the drop
                nw += 1;
                tr.with_images = nw % 4 == 0;
                let end = (off + 4096).min(data.len());
                let r = tr.exec(&mut live, &Op::HWrite(0, data[off..end].to_vec()));
                match r.strip_prefix("n:").and_then(|k| k.parse::<usize>().ok()) {
                    Some(k) if k > 0 => off += k,
                    _ => break,
                }
            }
            tr.with_images = true;
            tr.exec(&mut live, &Op::HDrop(0));
            if live.dead {
                break;
            }
            alive = reopen(&mut tr, &mut live, round % 2 == 0, &mut problems);
            if alive {
                tr.exec(&mut live, &Op::Walk);
                tr.exec(&mut live, &Op::Cat(path.clone()));
                if round == 1 {
                    tr.exec(&mut live, &Op::RemoveStream("/grow0".into()));
                    tr.exec(&mut live, &Op::CreateStream(1, "/small".into()));
                    tr.exec(&mut live, &Op::HWrite(1, vec![9u8; 300]));
                    tr.exec(&mut live, &Op::HDrop(1));
                    alive = reopen(&mut tr, &mut live, true, &mut problems);
                }
            }
        }
        if live.dead {
            problems.push("panic while growing the file".into());
        }
        writeln!(buf, "E").unwrap();
        w.write_all(&buf).unwrap();
        for p in problems {
            rep.fail(format!("difat seed={} case={} [{}]: {}", seed, i, sy.desc, p));
        }
    }
    w.flush().unwrap();
    rep
}

/// MS-CFB forbids only `/ \ : !` in names, so `.` and `..` are legal names of streams and
/// storages in files written by other implementations.  The library addresses entries by
/// `std::path::Path`, which gives those two names another meaning.  Every failure reported
/// here starts with the key `dotname` (see KNOWN_FINDINGS.txt).
pub fn dotnames_run() -> Report {
    let mut rep = Report::new();
    let mut rng = Rng::new(7);
    let data = |n: usize, t: usize| -> Vec<u8> { (0..n).map(|i| ((i * 7 + t) % 251 + 1) as u8).collect() };
    for v in [Version::V3, Version::V4] {
        for (label, dot) in [("dot", "."), ("dotdot", "..")] {
            // /plain, /<dot> (stream), /s/<dot> (stream), /s/keep, /t/<dot> (storage) / inner
            let kids = vec![
                Node::Stream { name: "plain".into(), state: 0, data: data(100, 1) },
                Node::Stream { name: dot.into(), state: 0, data: data(300, 2) },
                Node::Storage { name: "s".into(), clsid: 0, state: 0, ctime: 0, mtime: 0, kids: vec![
                    Node::Stream { name: dot.into(), state: 0, data: data(5000, 3) },
                    Node::Stream { name: "keep".into(), state: 0, data: data(64, 4) },
                ] },
                Node::Storage { name: "t".into(), clsid: 0, state: 0, ctime: 0, mtime: 0, kids: vec![
                    Node::Storage { name: dot.into(), clsid: 0, state: 0, ctime: 0, mtime: 0, kids: vec![
                        Node::Stream { name: "inner".into(), state: 0, data: data(70, 5) },
                    ] },
                ] },
            ];
            let sy = synthesize(&mut rng, v, &kids, (0, 0, 0, 0));
            let mut want = Vec::new();
            expected_dump(&kids, "/", &mut want);
            for strict in [true, false] {
                rep.evaluations += 1;
                rep.distinct.insert(format!("{:?}-{}-{}", v, label, strict));
                let ctx = format!("dotname {:?} name '{}' strict={}", v, dot, strict);
                let mut live = match std::panic::catch_unwind(|| Live::open(sy.bytes.clone(), strict, 4096)) {
                    Ok(Ok(l)) => l,
                    Ok(Err(e)) => {
                        rep.fail(format!("{}: open rejects a file whose entries are named '{}': {}", ctx, dot, e));
                        continue;
                    }
                    Err(_) => {
                        rep.fail(format!("{}: open panicked", ctx));
                        continue;
                    }
                };
                let r = std::panic::catch_unwind(std::panic::AssertUnwindSafe(|| {
                    let mut bad: Vec<String> = Vec::new();
                    let comp = live.comp.as_mut().unwrap();
                    let listed: Vec<(String, bool, u64)> = comp.walk().map(|e| (e.path().to_str().unwrap_or("?").to_string(), e.is_stream(), e.len())).collect();
                    if listed.len() != want.len() + 1 {
                        bad.push(format!("walk lists {} entries, the file holds {}", listed.len(), want.len() + 1));
                    }
                    // every stream the walk lists must be readable through the path the walk gives
                    for (p, is_stream, len) in listed.iter() {
                        if !*is_stream {
                            continue;
                        }
                        match comp.open_stream(p) {
                            Ok(mut s) => {
                                let mut got = Vec::new();
                                let _ = s.read_to_end(&mut got);
                                if got.len() as u64 != *len {
                                    bad.push(format!("stream listed as {} ({} bytes) reads {} bytes", p, len, got.len()));
                                }
                            }
                            Err(e) => bad.push(format!("stream listed as {} cannot be opened by that path: {}", p, e)),
                        }
                    }
                    // removing the storage that holds the dot-named stream must succeed or change nothing
                    let before = comp.walk().count();
                    match comp.remove_storage_all("/s") {
                        Ok(()) => {}
                        Err(e) => {
                            let after = comp.walk().count();
                            if after != before {
                                bad.push(format!("remove_storage_all(/s) failed ({}) after removing {} of its entries", e, before - after));
                            }
                        }
                    }
                    bad
                }));
                match r {
                    Ok(bad) => {
                        for b in bad {
                            rep.fail(format!("{}: {}", ctx, b));
                        }
                    }
                    Err(_) => rep.fail(format!("{}: panic", ctx)),
                }
            }
        }
    }
    rep.samples.push("trees with a stream / storage named '.' or '..' at the root and inside storages, V3 and V4, both modes".into());
    rep
}
