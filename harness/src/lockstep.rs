//! Runs generated histories on the real crate and writes the trace the model
//! driver replays: one `S <now> <op> => <result>` line per call, followed by the
//! byte image as the backing buffer holds it (no flush, no into_inner).

use std::fs::File;
use std::io::{BufWriter, Write};

use cfb::Version;

use crate::gen::{Gen, Profile};
use crate::ops::{enc_hex, enc_path, Live, Op, NHANDLES};
use crate::rng::Rng;

pub const T0: u64 = 132_000_000_000_000_000;

pub struct Tracer<W: Write> {
    pub out: W,
    pub last_img: Vec<u8>,
    pub step: u64,
    pub with_images: bool,
}

/// Where the call in progress is noted (history, step, operation): if the implementation never
/// returns, the supervising check finds the hanging call here.
pub static PROGRESS: std::sync::Mutex<Option<(String, String)>> = std::sync::Mutex::new(None);

pub fn note_progress(step: u64, op: &str) {
    if let Ok(g) = PROGRESS.lock() {
        if let Some((path, id)) = g.as_ref() {
            let _ = std::fs::write(path, format!("history {} step {} [{}]", id, step, op.chars().take(100).collect::<String>()));
        }
    }
}

impl<W: Write> Tracer<W> {
    pub fn exec(&mut self, live: &mut Live, op: &Op) -> String {
        self.step += 1;
        let now = T0 + self.step * 10_000_000;
        cfb::verif::verif_clock_set(Some(now));
        note_progress(self.step, &op.encode());
        let res = live.exec(op);
        writeln!(self.out, "S {} {} => {}", now, op.encode(), res).unwrap();
        if self.with_images {
            let img = live.buf.snapshot();
            if img == self.last_img {
                writeln!(self.out, "I =").unwrap();
            } else {
                writeln!(self.out, "I {}", enc_hex(&img)).unwrap();
                self.last_img = img;
            }
        }
        res
    }
}

/// Case-folded name chain of a path, by the crate's own functions (used only to
/// keep generated histories inside the properties' preconditions).
pub fn path_key(p: &str) -> Option<Vec<String>> {
    let path = std::path::Path::new(p);
    let names = cfb::verif::name_chain_from_path(path).ok()?;
    Some(
        names
            .iter()
            .map(|n| n.chars().map(cfb::verif::verif_uppercase).collect::<String>())
            .collect(),
    )
}

pub fn run_history<W: Write>(
    tr: &mut Tracer<W>,
    id: &str,
    seed: u64,
    prof: &Profile,
    failures: &mut Vec<String>,
) {
    let mut g = Gen::new(seed, prof.clone());
    let version = if g.rng.below(10) < 7 { Version::V3 } else { Version::V4 };
    let maxbuf = *g.rng.pick(prof.maxbufs);
    let mut live = match Live::create(version, maxbuf) {
        Ok(l) => l,
        Err(_) => return,
    };
    let mode = if version == Version::V4 { "create" } else { "createreopen" };
    writeln!(
        tr.out,
        "H {} {} {} {} {}",
        id,
        if version == Version::V3 { "v3" } else { "v4" },
        maxbuf,
        NHANDLES,
        mode
    )
    .unwrap();
    tr.last_img = Vec::new();
    tr.step = 0;
    let nsteps = prof.steps.0 + g.rng.below((prof.steps.1 - prof.steps.0 + 1) as u64) as usize;
    let mut bound: Vec<Option<Vec<String>>> = vec![None; NHANDLES];
    for _ in 0..nsteps {
        let op = g.next_op(&mut live);
        // Hygiene (the properties assume it): at most one handle per stream, and
        // no use of a handle after its stream has been removed.  Drop the handles
        // in the way before the operation that would break that.
        let target = match &op {
            Op::RemoveStream(p) | Op::RemoveStorage(p) | Op::RemoveStorageAll(p) => {
                Some((p.clone(), true))
            }
            Op::CreateStream(_, p) | Op::CreateNewStream(_, p) | Op::OpenStream(_, p) => {
                Some((p.clone(), false))
            }
            _ => None,
        };
        if let Some((p, subtree)) = target.filter(|_| prof.hygiene) {
            if let Some(key) = path_key(&p) {
                for h in 0..NHANDLES {
                    let hit = match &bound[h] {
                        Some(b) => {
                            if subtree {
                                b.len() >= key.len() && b[..key.len()] == key[..]
                            } else {
                                *b == key
                            }
                        }
                        None => false,
                    };
                    if hit {
                        tr.exec(&mut live, &Op::HDrop(h));
                        bound[h] = None;
                        g.occupied[h] = false;
                    }
                }
            }
        }
        // C02's own oracle, applied to the implementation alone: whenever the unflushed bytes
        // are reopened while no handle holds data, the reopened object must show exactly what
        // the live one showed
        let reopen_check = matches!(op, Op::Reopen(_)) && live.handles.iter().all(|h| h.is_none()) && !live.dead;
        let before = if reopen_check { std::panic::catch_unwind(std::panic::AssertUnwindSafe(|| live.dump())).ok() } else { None };
        let res = tr.exec(&mut live, &op);
        if reopen_check {
            if res != "ok" {
                failures.push(format!("lockstep {} history {} step {}: the bytes left by the previous calls do not reopen ({}): {}", prof.name, id, tr.step, op.encode(), res));
            } else if let Some(b) = before {
                let after = std::panic::catch_unwind(std::panic::AssertUnwindSafe(|| live.dump())).ok();
                if after.as_ref() != Some(&b) {
                    let a = after.unwrap_or_default();
                    let d = a.split(';').zip(b.split(';')).find(|(x, y)| x != y).map(|(x, y)| format!("reopened [{}] live [{}]", x.chars().take(120).collect::<String>(), y.chars().take(120).collect::<String>())).unwrap_or_else(|| format!("{} vs {} entries", a.split(';').count(), b.split(';').count()));
                    failures.push(format!("lockstep {} history {} step {}: the reopened file ({}) shows different content than the live object: {}", prof.name, id, tr.step, op.encode(), d));
                }
            }
        }
        if prof.tree {
            // whole-stream write: create, write everything sequentially, drop
            if let Op::CreateStream(h, _) | Op::CreateNewStream(h, _) = &op {
                if res == "ok" {
                    let n = g.size();
                    let data = g.data(n);
                    let mut off = 0usize;
                    while off < data.len() {
                        let r = tr.exec(&mut live, &Op::HWrite(*h, data[off..].to_vec()));
                        match r.strip_prefix("n:").and_then(|k| k.parse::<usize>().ok()) {
                            Some(k) if k > 0 => off += k,
                            _ => break,
                        }
                    }
                    tr.exec(&mut live, &Op::HDrop(*h));
                }
                g.occupied[*h] = false;
                if live.dead {
                    break;
                }
                continue;
            }
        }
        match &op {
            Op::CreateStream(h, p) | Op::CreateNewStream(h, p) | Op::OpenStream(h, p) => {
                if res != "ok" {
                    g.occupied[*h] = false;
                } else {
                    bound[*h] = path_key(p);
                }
            }
            Op::HDrop(h) => bound[*h] = None,
            Op::Reopen(_) => {
                for b in bound.iter_mut() {
                    *b = None;
                }
            }
            _ => {}
        }
        if live.dead {
            break;
        }
    }
    if !live.dead {
        // closing cross-check: drop the handles, dump everything, reopen both ways
        for h in 0..NHANDLES {
            if g.occupied[h] {
                tr.exec(&mut live, &Op::HDrop(h));
            }
        }
        tr.exec(&mut live, &Op::Walk);
        let streams: Vec<String> = live
            .comp
            .as_ref()
            .unwrap()
            .walk()
            .filter(|e| e.is_stream())
            .map(|e| e.path().to_str().unwrap().to_string())
            .collect();
        for p in streams.iter() {
            tr.exec(&mut live, &Op::Cat(p.clone()));
        }
        // closing cross-check, also as an oracle on the implementation alone (C02)
        let before = std::panic::catch_unwind(std::panic::AssertUnwindSafe(|| live.dump())).ok();
        for strict in [true, false] {
            let r = tr.exec(&mut live, &Op::Reopen(strict));
            if live.dead {
                break;
            }
            let mode = if strict { "strict" } else { "permissive" };
            if r != "ok" {
                failures.push(format!("lockstep {} history {} (end): the bytes do not reopen in {} mode: {}", prof.name, id, mode, r));
                break;
            }
            let after = std::panic::catch_unwind(std::panic::AssertUnwindSafe(|| live.dump())).ok();
            if after != before {
                failures.push(format!("lockstep {} history {} (end): reopened in {} mode the file shows different content than the live object", prof.name, id, mode));
            }
            if strict {
                tr.exec(&mut live, &Op::Walk);
                for p in streams.iter().take(3) {
                    tr.exec(&mut live, &Op::Cat(p.clone()));
                }
            }
        }
    }
    writeln!(tr.out, "E").unwrap();
    let _ = enc_path("");
}

pub fn run(prof: Profile, seed: u64, count: usize, out: &str) -> (usize, Vec<String>) {
    let f = File::create(out).unwrap();
    let mut tr = Tracer { out: BufWriter::new(f), last_img: Vec::new(), step: 0, with_images: true };
    let mut master = Rng::new(seed);
    let mut failures = Vec::new();
    for i in 0..count {
        let hs = master.next();
        let id = format!("{}-{}-{}", prof.name, seed, i);
        *PROGRESS.lock().unwrap() = Some((format!("{}.progress", out), id.clone()));
        run_history(&mut tr, &id, hs, &prof, &mut failures);
    }
    *PROGRESS.lock().unwrap() = None;
    let _ = std::fs::remove_file(format!("{}.progress", out));
    tr.out.flush().unwrap();
    (count, failures)
}

/// Systematic sweep of (initial size, new size) pairs over the boundary set, both
/// versions: create a stream of `a` bytes, set_len(b), read it back, remove it.
/// Shard `k` of `n` takes every n-th pair.
pub fn resize_sweep(out: &str, shard: usize, nshards: usize) -> usize {
    let f = File::create(out).unwrap();
    let mut tr = Tracer { out: BufWriter::new(f), last_img: Vec::new(), step: 0, with_images: true };
    let sizes: Vec<usize> = crate::gen::SIZES.iter().copied().chain([3072usize, 4608, 6144, 16384]).collect();
    let mut count = 0;
    let mut idx = 0;
    for version in [Version::V3, Version::V4] {
        for &a in sizes.iter() {
            for &b in sizes.iter() {
                idx += 1;
                if idx % nshards != shard {
                    continue;
                }
                let mut live = match Live::create(version, 4096) {
                    Ok(l) => l,
                    Err(_) => continue,
                };
                let mode = if version == Version::V4 { "create" } else { "createreopen" };
                writeln!(tr.out, "H sweep-{}-{}-{} {} 4096 {} {}", if version == Version::V3 { 3 } else { 4 }, a, b,
                         if version == Version::V3 { "v3" } else { "v4" }, NHANDLES, mode).unwrap();
                tr.last_img = Vec::new();
                tr.step = 0;
                // a neighbour stream so that freed space has somewhere to be observed
                tr.exec(&mut live, &Op::CreateStream(1, "/n".into()));
                tr.exec(&mut live, &Op::HWrite(1, vec![0x77; 100]));
                tr.exec(&mut live, &Op::HDrop(1));
                tr.exec(&mut live, &Op::CreateStream(0, "/s".into()));
                let data: Vec<u8> = (0..a).map(|i| ((i * 3 + (i >> 8)) % 255 + 1) as u8).collect();
                let mut off = 0;
                while off < data.len() {
                    let r = tr.exec(&mut live, &Op::HWrite(0, data[off..].to_vec()));
                    match r.strip_prefix("n:").and_then(|k| k.parse::<usize>().ok()) {
                        Some(k) if k > 0 => off += k,
                        _ => break,
                    }
                }
                tr.exec(&mut live, &Op::HSetLen(0, b as u64));
                tr.exec(&mut live, &Op::HDrop(0));
                tr.exec(&mut live, &Op::Cat("/s".into()));
                tr.exec(&mut live, &Op::EntryOf("/s".into()));
                tr.exec(&mut live, &Op::RemoveStream("/s".into()));
                tr.exec(&mut live, &Op::Cat("/n".into()));
                writeln!(tr.out, "E").unwrap();
                count += 1;
            }
        }
    }
    tr.out.flush().unwrap();
    count
}
